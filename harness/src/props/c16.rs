//! C16 — values round-trip through Serde; tojson emits valid, HTML-safe JSON.
use std::collections::BTreeMap;
use std::sync::Arc;

use minijinja::value::{Serde, ValueKind};
use minijinja::{Environment, Value};
use proptest::prelude::*;
use serde::{Deserialize, Serialize};

use crate::gen::value::{self as gv, PlainObj, Val};
use crate::model::json::{self, J};
use crate::runner::{Ctx, Part, Tier, Verdict};

// ------------------------------------------------------------------ the serde data model zoo

#[derive(Serialize, Deserialize, Clone, Copy, Debug)]
#[serde(transparent)]
pub struct F64B(pub f64);
impl PartialEq for F64B {
    fn eq(&self, o: &Self) -> bool {
        self.0.to_bits() == o.0.to_bits() || (self.0.is_nan() && o.0.is_nan())
    }
}

#[derive(Serialize, Deserialize, Clone, Copy, Debug)]
#[serde(transparent)]
pub struct F32B(pub f32);
impl PartialEq for F32B {
    fn eq(&self, o: &Self) -> bool {
        self.0.to_bits() == o.0.to_bits() || (self.0.is_nan() && o.0.is_nan())
    }
}

/// byte string going through serialize_bytes / deserialize_byte_buf
#[derive(Clone, Debug, PartialEq)]
pub struct ByteBuf(pub Vec<u8>);
impl Serialize for ByteBuf {
    fn serialize<S: serde::Serializer>(&self, s: S) -> Result<S::Ok, S::Error> {
        s.serialize_bytes(&self.0)
    }
}
impl<'de> Deserialize<'de> for ByteBuf {
    fn deserialize<D: serde::Deserializer<'de>>(d: D) -> Result<Self, D::Error> {
        struct V;
        impl<'de> serde::de::Visitor<'de> for V {
            type Value = ByteBuf;
            fn expecting(&self, f: &mut std::fmt::Formatter) -> std::fmt::Result {
                f.write_str("bytes")
            }
            fn visit_bytes<E: serde::de::Error>(self, v: &[u8]) -> Result<ByteBuf, E> {
                Ok(ByteBuf(v.to_vec()))
            }
            fn visit_byte_buf<E: serde::de::Error>(self, v: Vec<u8>) -> Result<ByteBuf, E> {
                Ok(ByteBuf(v))
            }
        }
        d.deserialize_byte_buf(V)
    }
}

#[derive(Serialize, Deserialize, Clone, Debug, PartialEq)]
pub struct PlainStruct {
    a: u8,
    b: String,
    c: Option<i64>,
    d: (bool, char),
    e: F32B,
    f: Vec<u16>,
    g: Box<Data>,
}

#[derive(Serialize, Deserialize, Clone, Debug, PartialEq)]
pub struct Wrap(Box<Data>);

#[derive(Serialize, Deserialize, Clone, Debug, PartialEq)]
pub struct TupleStruct(u8, Box<Data>, String);

#[derive(Serialize, Deserialize, Clone, Debug, PartialEq)]
pub struct UnitStruct;

#[derive(Serialize, Deserialize, Clone, Debug, PartialEq)]
pub enum Inner {
    A,
    B(u32),
    C(i8, String),
    D { p: F64B, q: Vec<Data> },
}

#[derive(Serialize, Deserialize, Clone, Debug, PartialEq)]
pub enum Data {
    Unit,
    Bool(bool),
    U8(u8),
    U16(u16),
    U32(u32),
    U64(u64),
    I8(i8),
    I16(i16),
    I32(i32),
    I64(i64),
    F32(F32B),
    F64(F64B),
    Char(char),
    Str(String),
    Bytes(ByteBuf),
    Opt(Option<Box<Data>>),
    OptInt(Option<u64>),
    OptStr(Option<String>),
    Seq(Vec<Data>),
    Pair(Box<Data>, i16),
    Rec { x: Box<Data>, y: bool, z: Option<String> },
    Tup((u8, String, F64B)),
    Tup2((Box<Data>, Box<Data>)),
    MapStr(BTreeMap<String, Data>),
    MapInt(BTreeMap<i32, Data>),
    MapU64(BTreeMap<u64, Data>),
    MapBool(BTreeMap<bool, Data>),
    MapChar(BTreeMap<char, Data>),
    MapTuple(BTreeMap<(i8, bool), Data>),
    Struct(PlainStruct),
    Newtype(Wrap),
    TupleStruct(TupleStruct),
    UnitStruct(UnitStruct),
    Nested(Box<Inner>),
}

const N_VARIANTS: u8 = 34;

/// JSON-friendly description from which a `Data` is built (so cases shrink and replay)
#[derive(Serialize, Deserialize, Clone, Debug)]
pub struct Shape {
    pub k: u8,
    pub n: u64,
    pub s: String,
    pub kids: Vec<Shape>,
}

fn ch(n: u64) -> char {
    const POOL: [char; 12] = ['a', '<', '\'', '"', '\\', '\n', '\0', '\u{7f}', 'é', '\u{2028}', '😀', '&'];
    if n % 3 == 0 {
        POOL[(n / 3) as usize % POOL.len()]
    } else {
        char::from_u32((n % 0x11_0000) as u32).unwrap_or('x')
    }
}

fn kid(sh: &Shape, i: usize, depth: usize) -> Data {
    match sh.kids.get(i) {
        Some(k) if depth < 6 => build(k, depth + 1),
        _ => Data::U8(sh.n as u8),
    }
}

pub fn build(sh: &Shape, depth: usize) -> Data {
    let n = sh.n;
    let kids = |from: usize| -> Vec<Data> {
        sh.kids.iter().skip(from).map(|k| build(k, depth + 1)).collect()
    };
    match sh.k % N_VARIANTS {
        0 => Data::Unit,
        1 => Data::Bool(n & 1 == 1),
        2 => Data::U8(n as u8),
        3 => Data::U16(n as u16),
        4 => Data::U32(n as u32),
        5 => Data::U64(n),
        6 => Data::I8(n as i8),
        7 => Data::I16(n as i16),
        8 => Data::I32(n as i32),
        9 => Data::I64(n as i64),
        10 => Data::F32(F32B(f32::from_bits(n as u32))),
        11 => Data::F64(F64B(f64::from_bits(n))),
        12 => Data::Char(ch(n)),
        13 => Data::Str(sh.s.clone()),
        14 => Data::Bytes(ByteBuf(sh.s.as_bytes().iter().map(|b| b.wrapping_add(n as u8)).collect())),
        15 => Data::Opt(match sh.kids.first() {
            // an option of a non-optional payload
            Some(k) if !matches!(k.k % N_VARIANTS, 15 | 16 | 17) && depth < 6 => Some(Box::new(build(k, depth + 1))),
            _ => None,
        }),
        16 => Data::OptInt(if n % 3 == 0 { None } else { Some(n) }),
        17 => Data::OptStr(if n % 3 == 0 { None } else { Some(sh.s.clone()) }),
        18 => Data::Seq(kids(0)),
        19 => Data::Pair(Box::new(kid(sh, 0, depth)), n as i16),
        20 => Data::Rec {
            x: Box::new(kid(sh, 0, depth)),
            y: n & 1 == 1,
            z: if n & 2 == 2 { Some(sh.s.clone()) } else { None },
        },
        21 => Data::Tup((n as u8, sh.s.clone(), F64B(f64::from_bits(n.rotate_left(17))))),
        22 => Data::Tup2((Box::new(kid(sh, 0, depth)), Box::new(kid(sh, 1, depth)))),
        23 => Data::MapStr(
            sh.kids
                .iter()
                .map(|k| (k.s.clone(), build(k, depth + 1)))
                .collect(),
        ),
        24 => Data::MapInt(sh.kids.iter().map(|k| (k.n as i32, build(k, depth + 1))).collect()),
        25 => Data::MapU64(sh.kids.iter().map(|k| (k.n, build(k, depth + 1))).collect()),
        26 => Data::MapBool(sh.kids.iter().map(|k| (k.n & 1 == 1, build(k, depth + 1))).collect()),
        27 => Data::MapChar(sh.kids.iter().map(|k| (ch(k.n), build(k, depth + 1))).collect()),
        28 => Data::MapTuple(
            sh.kids
                .iter()
                .map(|k| ((k.n as i8, k.n & 256 != 0), build(k, depth + 1)))
                .collect(),
        ),
        29 => Data::Struct(PlainStruct {
            a: n as u8,
            b: sh.s.clone(),
            c: if n & 4 == 4 { Some((n as i64).wrapping_neg()) } else { None },
            d: (n & 8 == 8, ch(n >> 4)),
            e: F32B(f32::from_bits((n >> 7) as u32)),
            f: sh.kids.iter().map(|k| k.n as u16).collect(),
            g: Box::new(kid(sh, 0, depth)),
        }),
        30 => Data::Newtype(Wrap(Box::new(kid(sh, 0, depth)))),
        31 => Data::TupleStruct(TupleStruct(n as u8, Box::new(kid(sh, 0, depth)), sh.s.clone())),
        32 => Data::UnitStruct(UnitStruct),
        _ => Data::Nested(Box::new(match n % 4 {
            0 => Inner::A,
            1 => Inner::B((n >> 2) as u32),
            2 => Inner::C((n >> 2) as i8, sh.s.clone()),
            _ => Inner::D {
                p: F64B(f64::from_bits(n.rotate_left(9))),
                q: kids(0),
            },
        })),
    }
}

const TEXTS: [&str; 16] = [
    "",
    "a",
    "<script>alert('x')</script>&\"",
    "line\nbreak\ttab\rcr",
    "\u{0}\u{1}\u{1f}\u{7f}",
    "\u{2028}\u{2029}",
    "\\ud800 lone surrogate escape text \\udc00",
    "\\u0041 \\n \\\\ \\\"",
    "é ß 😀 𝄞",
    "\x01__minijinja_ValueHandle",
    "a string that is longer than the inline small string buffer of the engine",
    "'single' \"double\" `back`",
    "</script><!--",
    "true",
    "1",
    "null",
];

fn text() -> BoxedStrategy<String> {
    prop_oneof![
        4 => (0..TEXTS.len()).prop_map(|i| TEXTS[i].to_string()),
        1 => prop::collection::vec(any::<char>(), 0..6).prop_map(|v| v.into_iter().collect()),
    ]
    .boxed()
}

fn number() -> BoxedStrategy<u64> {
    prop_oneof![
        3 => crate::runner::one_of(&[
            0u64, 1, 2, 3, 127, 128, 255, 256, 32767, 32768, 65535, 65536, (1 << 31) - 1, 1 << 31,
            (1 << 32) - 1, 1 << 32, (1 << 53) + 1, (1 << 63) - 1, 1 << 63, u64::MAX,
            0x7ff0000000000000, 0xfff0000000000000, 0x7ff8000000000000, 0x8000000000000000, 1,
            0x3ff0000000000000, 0x7f800000, 0xff800000, 0x7fc00000, 0x80000000,
        ]),
        2 => any::<u64>(),
        1 => 0u64..1000,
    ]
    .boxed()
}

fn shape() -> BoxedStrategy<Shape> {
    let leaf = (any::<u8>(), number(), text()).prop_map(|(k, n, s)| Shape {
        k,
        n,
        s,
        kids: vec![],
    });
    leaf.prop_recursive(4, 24, 4, |inner| {
        (any::<u8>(), number(), text(), prop::collection::vec(inner, 0..4))
            .prop_map(|(k, n, s, kids)| Shape { k, n, s, kids })
    })
    .boxed()
}

fn data_depth(sh: &Shape) -> usize {
    1 + sh.kids.iter().map(data_depth).max().unwrap_or(0)
}

pub struct RoundTrip;

impl Part for RoundTrip {
    type Case = Shape;
    const NAME: &'static str = "serde_round_trip";

    fn strategy(_tier: Tier) -> BoxedStrategy<Shape> {
        shape()
    }

    fn check(sh: &Shape) -> Verdict {
        let data = build(sh, 0);
        let interesting = matches!(sh.k % N_VARIANTS, 19 | 20 | 24..=28 | 33 | 0)
            || sh.kids.iter().any(|k| matches!(k.k % N_VARIANTS, 19 | 20 | 24..=28 | 33 | 0));
        let mut v = Verdict::pass(data_depth(sh) >= 2 && interesting);
        v.labels.push(match sh.k % N_VARIANTS {
            0 => "unit_variant",
            19 => "tuple_variant",
            20 => "struct_variant",
            23..=28 => "map",
            29 => "struct",
            30 => "newtype_struct",
            31 => "tuple_struct",
            32 => "unit_struct",
            33 => "nested_enum",
            15..=17 => "option",
            10 | 11 => "float",
            _ => "other",
        });
        let value = Value::from(Serde(&data));
        // by value and by reference deserializer
        for by_ref in [false, true] {
            let back = if by_ref {
                Data::deserialize(&value)
            } else {
                Data::deserialize(value.clone())
            };
            match back {
                Ok(b) if b == data => {}
                Ok(b) => v.set_fail(
                    format!("roundtrip_differs:{}", v.labels[0]),
                    format!("{data:?} came back as {b:?} (value {value:?})"),
                ),
                Err(e) => v.set_fail(
                    format!("roundtrip_err:{}", v.labels[0]),
                    format!("{data:?} serialized to {value:?} but deserializing failed: {e}"),
                ),
            }
        }
        v
    }
}

// ------------------------------------------------------------------ embedded values

#[derive(Clone, Debug, Serialize, Deserialize)]
pub struct EmbedCase {
    /// (kind, text) of embedded values
    pub items: Vec<(u8, String)>,
    pub layout: u8,
}

/// A field whose `Serialize` impl customises what the template engine sees (the use
/// `serializing_for_value()` is documented for): while the outer conversion is running it
/// converts its payload to a `Value` of its own and serializes that.
struct Reentrant {
    active: bool,
    payload: Vec<Value>,
}

impl Serialize for Reentrant {
    fn serialize<S: serde::Serializer>(&self, s: S) -> Result<S::Ok, S::Error> {
        if self.active && minijinja::value::serializing_for_value() {
            let converted = Value::from(Serde(&self.payload));
            converted.serialize(s)
        } else {
            self.payload.serialize(s)
        }
    }
}

/// enum variants with several embedded values, reached through shapes that make serde buffer
/// them before they reach the serializer (an internally tagged enum around them, `flatten`)
#[derive(Serialize)]
enum Several {
    Tup(Value, Value, Value),
    St { a: Value, b: Value },
}

#[derive(Serialize)]
#[serde(tag = "kind")]
enum Tagged {
    Wrap(Several),
}

#[derive(Serialize)]
struct Flattening {
    #[serde(flatten)]
    inner: Several,
    z: u8,
}

#[derive(Serialize)]
struct Holder {
    before: u8,
    pre: Reentrant,
    tagged: Option<Tagged>,
    flat: Option<Flattening>,
    v: Value,
    list: Vec<Value>,
    map: BTreeMap<String, Value>,
    opt: Option<Value>,
    nested: Option<Box<Holder>>,
    after: String,
}

pub struct Embedded;

fn embedded_value(kind: u8, text: &str) -> (Value, Option<Arc<PlainObj>>) {
    match kind % 8 {
        0 => (Value::from_safe_string(text.to_string()), None),
        1 => (Value::UNDEFINED, None),
        2 => (Value::from(()), None),
        3 => {
            let obj = Arc::new(PlainObj(text.to_string()));
            (Value::from_dyn_object(obj.clone()), Some(obj))
        }
        4 => (Value::from(text), None),
        5 => (Value::from(vec![Value::from_safe_string(text.to_string()), Value::UNDEFINED]), None),
        6 => (Value::from(text.len() as u64 + (1 << 63)), None),
        _ => (Value::from_bytes(text.as_bytes().to_vec()), None),
    }
}

fn same_value(orig: &Value, orig_obj: &Option<Arc<PlainObj>>, got: &Value) -> Result<(), String> {
    if orig.is_undefined() != got.is_undefined() {
        return Err(format!("undefined-ness changed: {orig:?} -> {got:?}"));
    }
    if orig.is_none() != got.is_none() {
        return Err(format!("none-ness changed: {orig:?} -> {got:?}"));
    }
    if orig.is_safe() != got.is_safe() {
        return Err(format!("safe flag changed: {orig:?} (safe={}) -> {got:?} (safe={})", orig.is_safe(), got.is_safe()));
    }
    if orig.kind() != got.kind() {
        return Err(format!("kind changed: {:?} -> {:?}", orig.kind(), got.kind()));
    }
    if let Some(o) = orig_obj {
        match got.downcast_object::<PlainObj>() {
            Some(g) if Arc::ptr_eq(o, &g) => {}
            _ => return Err(format!("object identity lost: {orig:?} -> {got:?}")),
        }
    } else if orig.kind() != ValueKind::Undefined && orig != got {
        return Err(format!("value changed: {orig:?} -> {got:?}"));
    }
    if orig.kind() == ValueKind::Seq {
        // nested values keep their flags too
        let a: Vec<Value> = orig.try_iter().map(|i| i.collect()).unwrap_or_default();
        let b: Vec<Value> = got.try_iter().map(|i| i.collect()).unwrap_or_default();
        if a.len() != b.len() {
            return Err("nested length changed".into());
        }
        for (x, y) in a.iter().zip(&b) {
            same_value(x, &None, y)?;
        }
    }
    Ok(())
}

impl Part for Embedded {
    type Case = EmbedCase;
    const NAME: &'static str = "embedded_values";

    fn strategy(_tier: Tier) -> BoxedStrategy<EmbedCase> {
        (prop::collection::vec((0u8..8, text()), 1..6), any::<u8>())
            .prop_map(|(items, layout)| EmbedCase { items, layout })
            .boxed()
    }

    fn check(c: &EmbedCase) -> Verdict {
        let made: Vec<(Value, Option<Arc<PlainObj>>)> =
            c.items.iter().map(|(k, t)| embedded_value(*k, t)).collect();
        let mut v = Verdict::pass(c.items.len() >= 2);
        let first = made[0].0.clone();
        let inner = Holder {
            before: 1,
            pre: Reentrant { active: c.layout & 8 == 8, payload: vec![] },
            tagged: None,
            flat: None,
            v: made.last().unwrap().0.clone(),
            list: vec![],
            map: BTreeMap::new(),
            opt: None,
            nested: None,
            after: "in".into(),
        };
        let holder = Holder {
            before: c.layout,
            pre: Reentrant { active: c.layout & 4 == 4, payload: made.iter().map(|x| x.0.clone()).collect() },
            tagged: if c.layout & 16 == 16 {
                Some(Tagged::Wrap(if c.layout & 32 == 32 {
                    Several::Tup(first.clone(), made.last().unwrap().0.clone(), made[made.len() / 2].0.clone())
                } else {
                    Several::St { a: first.clone(), b: made.last().unwrap().0.clone() }
                }))
            } else {
                None
            },
            flat: if c.layout & 64 == 64 {
                Some(Flattening {
                    inner: if c.layout & 32 == 32 {
                        Several::St { a: made.last().unwrap().0.clone(), b: first.clone() }
                    } else {
                        Several::Tup(made.last().unwrap().0.clone(), first.clone(), made[made.len() / 2].0.clone())
                    },
                    z: 7,
                })
            } else {
                None
            },
            v: first.clone(),
            list: made.iter().map(|x| x.0.clone()).collect(),
            map: made
                .iter()
                .enumerate()
                .map(|(i, x)| (format!("k{i}"), x.0.clone()))
                .collect(),
            opt: if c.layout & 1 == 1 { Some(first.clone()) } else { None },
            nested: if c.layout & 2 == 2 { Some(Box::new(inner)) } else { None },
            after: "out".into(),
        };
        // interleave an unrelated conversion: handles must not leak between conversions
        let value = Value::from(Serde(&holder));
        let _other = Value::from(Serde(&vec![Value::from(1), Value::from_safe_string("x".into())]));
        let check = |what: &str, orig: &(Value, Option<Arc<PlainObj>>), got: Result<Value, minijinja::Error>, v: &mut Verdict| match got {
            Ok(g) => {
                if let Err(e) = same_value(&orig.0, &orig.1, &g) {
                    v.set_fail("embedded_value_changed", format!("{what}: {e}"));
                }
            }
            Err(e) => v.set_fail("embedded_value_err", format!("{what}: {e}")),
        };
        if c.layout & 4 == 4 {
            v.labels.push("nested_conversion_before_values");
        }
        let pre = value.get_attr("pre").unwrap_or_default();
        for (i, m) in made.iter().enumerate() {
            check(&format!("pre[{i}]"), m, pre.get_item(&Value::from(i)), &mut v);
        }
        let last = made.last().unwrap();
        let mid = &made[made.len() / 2];
        if c.layout & 16 == 16 {
            v.labels.push("values_in_buffered_variant");
            let t = value.get_attr("tagged").unwrap_or_default();
            if c.layout & 32 == 32 {
                let tup = t.get_attr("Tup").unwrap_or_default();
                check("tagged.Tup[0]", &made[0], tup.get_item(&Value::from(0)), &mut v);
                check("tagged.Tup[1]", last, tup.get_item(&Value::from(1)), &mut v);
                check("tagged.Tup[2]", mid, tup.get_item(&Value::from(2)), &mut v);
            } else {
                let st = t.get_attr("St").unwrap_or_default();
                check("tagged.St.a", &made[0], st.get_attr("a"), &mut v);
                check("tagged.St.b", last, st.get_attr("b"), &mut v);
            }
        }
        if c.layout & 64 == 64 {
            let f = value.get_attr("flat").unwrap_or_default();
            if c.layout & 32 == 32 {
                let st = f.get_attr("St").unwrap_or_default();
                check("flat.St.a", last, st.get_attr("a"), &mut v);
                check("flat.St.b", &made[0], st.get_attr("b"), &mut v);
            } else {
                let tup = f.get_attr("Tup").unwrap_or_default();
                check("flat.Tup[0]", last, tup.get_item(&Value::from(0)), &mut v);
                check("flat.Tup[1]", &made[0], tup.get_item(&Value::from(1)), &mut v);
                check("flat.Tup[2]", mid, tup.get_item(&Value::from(2)), &mut v);
            }
        }
        check("field v", &made[0], value.get_attr("v"), &mut v);
        if value.get_attr("before").ok() != Some(Value::from(c.layout)) || value.get_attr("after").ok() != Some(Value::from("out")) {
            v.set_fail("embedded_neighbour_changed", format!("plain fields next to the value changed: {value:?}"));
        }
        let list = value.get_attr("list").unwrap_or_default();
        let map = value.get_attr("map").unwrap_or_default();
        for (i, m) in made.iter().enumerate() {
            check(&format!("list[{i}]"), m, list.get_item(&Value::from(i)), &mut v);
            check(&format!("map.k{i}"), m, map.get_attr(&format!("k{i}")), &mut v);
        }
        if c.layout & 1 == 1 {
            check("opt", &made[0], value.get_attr("opt"), &mut v);
        }
        if c.layout & 2 == 2 {
            let nested = value.get_attr("nested").unwrap_or_default();
            check("nested.v", made.last().unwrap(), nested.get_attr("v"), &mut v);
        }
        v
    }
}

// ------------------------------------------------------------------ tojson / JSON auto-escape

#[derive(Clone, Debug, Serialize, Deserialize)]
pub struct JsonCase {
    pub v: Val,
    pub indent: Option<u8>,
    /// 0 = tojson filter, 1 = tojson in an .html template, 2 = `{{ v }}` in a .json template
    pub mode: u8,
}

pub struct ToJson;

fn key_ok(k: &Val) -> bool {
    match k {
        Val::Str(_) | Val::ArcStr(_) | Val::SafeStr(_) | Val::Bool(_) => true,
        Val::I64(_) | Val::U64(_) | Val::I128(_) | Val::U128(_) => true,
        Val::F64(b) => f64::from_bits(*b).is_finite(),
        _ => false,
    }
}

fn has_bad_key(v: &Val) -> bool {
    match v {
        Val::List(x) | Val::Tuple(x) | Val::SizedIter(x) | Val::UnsizedIter(x) => x.iter().any(has_bad_key),
        Val::Map(e) => e.iter().any(|(k, v)| !key_ok(k) || has_bad_key(v)),
        _ => false,
    }
}

fn key_matches(k: &Val, got: &str) -> bool {
    match k {
        Val::Str(s) | Val::ArcStr(s) | Val::SafeStr(s) => s == got,
        Val::Bool(b) => got == if *b { "true" } else { "false" },
        Val::I64(x) => x.to_string() == got,
        Val::U64(x) => x.to_string() == got,
        Val::I128(s) | Val::U128(s) => s == got,
        Val::F64(b) => got.parse::<f64>().map_or(false, |g| g == f64::from_bits(*b)),
        _ => false,
    }
}

fn matches(v: &Val, got: &J) -> bool {
    match (v, got) {
        (Val::None | Val::Undefined, J::Null) => true,
        (Val::Bool(b), J::Bool(g)) => b == g,
        (Val::I64(x), J::Num(t)) => x.to_string() == *t,
        (Val::U64(x), J::Num(t)) => x.to_string() == *t,
        (Val::I128(s) | Val::U128(s), J::Num(t)) => s == t,
        (Val::F64(bits), g) => {
            let f = f64::from_bits(*bits);
            if !f.is_finite() {
                *g == J::Null
            } else if let J::Num(t) = g {
                // must be written as a float that reads back exactly
                t.parse::<f64>().map_or(false, |p| p == f && (p != 0.0 || p.is_sign_negative() == f.is_sign_negative()))
            } else {
                false
            }
        }
        (Val::Str(s) | Val::ArcStr(s) | Val::SafeStr(s) | Val::Plain(s), J::Str(g)) => s == g,
        (Val::Bytes(b), J::Arr(items)) => {
            b.len() == items.len() && b.iter().zip(items).all(|(x, y)| *y == J::Num(x.to_string()))
        }
        (Val::List(x) | Val::Tuple(x) | Val::SizedIter(x) | Val::UnsizedIter(x), J::Arr(items)) => {
            x.len() == items.len() && x.iter().zip(items).all(|(a, b)| matches(a, b))
        }
        (Val::Map(entries), J::Obj(got)) => {
            // the engine's map keeps one entry per distinct key (by ==); compare as multisets
            // of (string form, value) allowing the engine to have merged equal keys
            let mut used = vec![false; got.len()];
            let value = v.to_value();
            let n = value.len().unwrap_or(0);
            if n != got.len() {
                return false;
            }
            // every got entry must correspond to some expected entry
            for (i, (gk, gv)) in got.iter().enumerate() {
                // equal keys (0 / false / 0.0) are one entry for the engine; which spelling of
                // the key and which of their values survives is the map's business
                let hit = entries.iter().any(|(k, _)| {
                    key_matches(k, gk) && {
                        let kv = k.to_value();
                        entries
                            .iter()
                            .any(|(k2, val2)| k2.to_value() == kv && matches(val2, gv))
                    }
                });
                if !hit {
                    return false;
                }
                used[i] = true;
            }
            // every expected key must be present in string form, possibly represented by a
            // key that is equal to it (0 / false / 0.0 are one key for the engine)
            entries.iter().all(|(k, _)| {
                let kv = k.to_value();
                entries
                    .iter()
                    .filter(|(k2, _)| k2.to_value() == kv)
                    .any(|(k2, _)| got.iter().any(|(gk, _)| key_matches(k2, gk)))
            })
        }
        _ => false,
    }
}

fn needs_escape(v: &Val) -> bool {
    let s = |s: &str| s.chars().any(|c| matches!(c, '<' | '>' | '&' | '\'' | '"' | '\\') || (c as u32) < 0x20);
    match v {
        Val::Str(x) | Val::ArcStr(x) | Val::SafeStr(x) | Val::Plain(x) => s(x),
        Val::List(x) | Val::Tuple(x) | Val::SizedIter(x) | Val::UnsizedIter(x) => x.iter().any(needs_escape),
        Val::Map(e) => e.iter().any(|(k, v)| needs_escape(k) || needs_escape(v)),
        _ => false,
    }
}

fn json_text_val() -> BoxedStrategy<Val> {
    (text(), 0u8..3)
        .prop_map(|(s, f)| match f {
            0 => Val::Str(s),
            1 => Val::ArcStr(s),
            _ => Val::SafeStr(s),
        })
        .boxed()
}

fn json_val(depth: u32) -> BoxedStrategy<Val> {
    let scalar = prop_oneof![
        1 => Just(Val::None),
        1 => Just(Val::Undefined),
        1 => any::<bool>().prop_map(Val::Bool),
        3 => gv::int_val(),
        3 => gv::float_val(),
        5 => json_text_val(),
        1 => prop::collection::vec(any::<u8>(), 0..4).prop_map(Val::Bytes),
        1 => text().prop_map(Val::Plain),
    ];
    if depth == 0 {
        return scalar.boxed();
    }
    let inner = json_val(depth - 1);
    let seq = prop::collection::vec(inner.clone(), 0..4);
    let key = prop_oneof![
        6 => json_text_val(),
        2 => gv::int_val(),
        1 => any::<bool>().prop_map(Val::Bool),
        1 => gv::float_val(),
        1 => Just(Val::None),
        1 => Just(Val::List(vec![])),
    ];
    prop_oneof![
        4 => scalar,
        1 => seq.clone().prop_map(Val::List),
        1 => seq.clone().prop_map(Val::Tuple),
        1 => seq.clone().prop_map(Val::SizedIter),
        1 => seq.prop_map(Val::UnsizedIter),
        3 => prop::collection::vec((key, inner), 0..4).prop_map(|mut e| {
            let mut seen: Vec<Val> = vec![];
            e.retain(|(k, _)| {
                if seen.contains(k) {
                    false
                } else {
                    seen.push(k.clone());
                    true
                }
            });
            Val::Map(e)
        }),
    ]
    .boxed()
}

impl Part for ToJson {
    type Case = JsonCase;
    const NAME: &'static str = "tojson";

    fn strategy(_tier: Tier) -> BoxedStrategy<JsonCase> {
        (
            json_val(3),
            prop_oneof![Just(None), (0u8..6).prop_map(Some)],
            0u8..3,
        )
            .prop_map(|(v, indent, mode)| JsonCase { v, indent, mode })
            .boxed()
    }

    fn check(c: &JsonCase) -> Verdict {
        let mut v = Verdict::pass(needs_escape(&c.v) && c.v.depth() >= 1);
        if c.mode == 2 && matches!(c.v, Val::SafeStr(_)) {
            // a value explicitly marked safe bypasses auto-escaping by design
            return Verdict::pass(false);
        }
        let mut env = Environment::new();
        let (name, src) = match (c.mode, c.indent) {
            (0, None) => ("t.txt", "{{ v|tojson }}".to_string()),
            (0, Some(i)) => ("t.txt", format!("{{{{ v|tojson(indent={i}) }}}}")),
            (1, None) => ("t.html", "{{ v|tojson }}".to_string()),
            (1, Some(i)) => ("t.html", format!("{{{{ v|tojson({i}) }}}}")),
            _ => ("t.json", "{{ v }}".to_string()),
        };
        env.add_template_owned(name.to_string(), src.clone()).unwrap();
        let out = env
            .get_template(name)
            .unwrap()
            .render(Value::from_pairs([("v", c.v.to_value())]));
        let bad_key = has_bad_key(&c.v);
        if bad_key {
            v.labels.push("unrepresentable_key");
        }
        match out {
            Err(e) => {
                if bad_key {
                    v.labels.push("error_accepted");
                } else {
                    v.set_fail("tojson_err", format!("`{src}` in {name} on {:?} failed: {e:#}", c.v));
                }
            }
            Ok(text) => {
                if c.mode != 2 {
                    if let Some(bad) = text.chars().find(|ch| matches!(ch, '<' | '>' | '&' | '\'')) {
                        v.set_fail("tojson_html_unsafe", format!("`{src}` on {:?} emitted {bad:?}: {text:?}", c.v));
                    }
                }
                match json::parse(&text) {
                    Err(e) => v.set_fail(
                        if c.mode == 2 { "json_autoescape_invalid" } else { "tojson_invalid" },
                        format!("`{src}` in {name} on {:?} emitted invalid JSON ({e}): {text:?}", c.v),
                    ),
                    Ok(tree) => {
                        if !bad_key && !matches(&c.v, &tree) {
                            v.set_fail(
                                if c.mode == 2 { "json_autoescape_differs" } else { "tojson_differs" },
                                format!("`{src}` in {name} on {:?} emitted {text:?} which parses to a different value", c.v),
                            );
                        }
                    }
                }
            }
        }
        v
    }
}

crate::declare_parts!(RoundTrip, Embedded, ToJson);

pub fn run(ctx: &mut Ctx) {
    ctx.rule = "round trip: shape trees (depth <= 5) instantiated through an enum covering every serde variant/struct shape (unit/newtype/tuple/struct variants, structs, newtype/tuple/unit structs, options, sequences, tuples, maps keyed by string/int/u64/bool/char/tuple, byte strings, f32/f64 by bit pattern, chars and strings incl. control characters, U+2028/9, HTML metacharacters, the value-handle marker text); T::deserialize(Value::from(Serde(&x))) must equal x through both the by-value and by-reference deserializer. Embedded values: structs holding Value fields (safe strings, undefined, none, dynamic objects, nested lists) must expose the very same values after conversion, also inside enum variants that serde buffers before serializing them (internally tagged enums, flatten) and when a field's Serialize impl runs a nested Value conversion of its own (the serializing_for_value() pattern) before them. tojson: generated value trees (depth <= 3, all representations, maps with scalar and unrepresentable keys) rendered with tojson (with/without indent, .txt/.html) and JSON auto-escaping; output parsed by an independent strict RFC 8259 parser and compared. Non-trivial: depth >= 2 with an enum variant / non-string-keyed map; embedded: >= 2 values; tojson: a string needing an escape inside a container. Distinct by encoded case.".into();
    ctx.assumptions = vec![
        "model/json.rs is a correct strict JSON parser (unit tested)".into(),
        "floats are compared by bit pattern (all NaNs alike); -0.0 must keep its sign through JSON".into(),
        "a tojson error is accepted only when some map key is none/undefined/sequence/map/bytes/non-finite float".into(),
    ];
    preamble(ctx);
    let t = ctx.tier;
    ctx.run_part::<RoundTrip>(t.pick(600_000, 40_000_000));
    ctx.run_part::<Embedded>(t.pick(150_000, 8_000_000));
    ctx.run_part::<ToJson>(t.pick(400_000, 40_000_000));
    if !ctx.sub {
        ctx.run_variant("MJV_ALT", "alt");
    }
}
