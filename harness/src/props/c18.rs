//! C18 — undeclared_variables never omits a variable the template reads.
use std::collections::BTreeSet;

use minijinja::Environment;
use proptest::prelude::*;
use serde::{Deserialize, Serialize};

use crate::gen::ast::*;
use crate::gen::ctx::Recording;
use crate::gen::free::{self, Opts};
use crate::gen::print;
use crate::props::c01::std_ctx;
use crate::runner::{Ctx, Part, Tier, Verdict};

#[derive(Clone, Debug, Serialize, Deserialize)]
pub struct MetaCase {
    pub source: String,
    /// names removed from the standard context
    pub missing: Vec<String>,
    /// extra context names bound to a string (names the generator also uses as targets / specials)
    pub extra: Vec<String>,
    pub undefined: u8,
    /// 0: one syntax throughout. 1 / 2: the template is written and loaded under custom
    /// delimiters, then the environment's syntax is switched (to the default / to another custom
    /// one; documented to affect only templates loaded later) before the report is asked for
    #[serde(default)]
    pub syntax_switch: u8,
}

pub struct Soundness;

/// assignment shapes that read the name they assign, special names as plain variables, ...
fn tricky() -> BoxedStrategy<String> {
    let name = || crate::runner::one_of(&["x", "y", "s", "l", "i", "a2", "loop", "self", "super", "caller", "varargs", "kwargs", "ns", "z", "m"]);
    let stmt = prop_oneof![
        (name(), name()).prop_map(|(a, b)| format!("{{% set {a} = {b} ~ 1 %}}{{{{ {a} }}}}")),
        (name(), name()).prop_map(|(a, b)| format!("{{% set {a}, q = [{b}, 1] %}}")),
        (name(), name()).prop_map(|(a, b)| format!("{{% with {a} = {b} %}}{{{{ {a} }}}}{{% endwith %}}")),
        (name(), name(), name()).prop_map(|(a, b, c)| format!("{{% with {a} = 1, {b} = {c} %}}{{{{ {b} }}}}{{% endwith %}}")),
        (name(), name()).prop_map(|(a, b)| format!("{{% set {a} %}}[{{{{ {b} }}}}]{{% endset %}}{{{{ {a} }}}}")),
        (name(), name()).prop_map(|(a, b)| format!("{{% set {a} | replace({b}, 'r') %}}text{{% endset %}}")),
        (name(), name()).prop_map(|(a, b)| format!("{{% macro mm({a}={b}) %}}{{{{ {a} }}}}{{% endmacro %}}{{{{ mm() }}}}")),
        (name(), name(), name()).prop_map(|(a, b, c)| format!("{{% macro mm({a}, {b}={c}) %}}{{{{ {a} }}}}{{{{ {b} }}}}{{% endmacro %}}{{{{ mm(1) }}}}")),
        (name(), name()).prop_map(|(a, b)| format!("{{% for {a} in {b} %}}{{{{ {a} }}}}{{% endfor %}}")),
        (name(), name(), name()).prop_map(|(a, b, c)| format!("{{% for {a} in [1, 2] if {b} or {c} %}}{{{{ {a} }}}}{{% else %}}{{{{ {a} }}}}{{{{ loop }}}}{{% endfor %}}")),
        (name(), name()).prop_map(|(a, b)| format!("{{% for {a} in [[1]] recursive %}}{{{{ loop({b}) if {a} is sequence }}}}{{% endfor %}}")),
        name().prop_map(|a| format!("{{{{ {a} }}}}")),
        name().prop_map(|a| format!("{{{{ {a}[1:2] }}}}")),
        name().prop_map(|a| format!("{{{{ 'abc'[{a}:] }}}}")),
        name().prop_map(|a| format!("{{{{ {a}.attr }}}}{{{{ {a}['k'] }}}}")),
        name().prop_map(|a| format!("{{% autoescape {a} %}}t{{% endautoescape %}}")),
        name().prop_map(|a| format!("{{% filter replace({a}, 'r') %}}t{{% endfilter %}}")),
        (name(), name()).prop_map(|(a, b)| format!("{{% set {a}.attr = {b} %}}")),
        // attribute targets inside tuple targets read their object too
        (name(), name()).prop_map(|(a, b)| format!("{{% set {a}.attr, q = 1, {b} %}}{{{{ q }}}}")),
        (name(), name()).prop_map(|(a, b)| format!("{{% set (q, (r, {a}.attr)) = (1, ({b}, 3)) %}}{{{{ q }}}}")),
        (name(), name()).prop_map(|(a, b)| format!("{{% with q = 1 %}}{{% set {a}.x, {b}.y = q, q %}}{{% endwith %}}")),
        name().prop_map(|a| format!("{{% block blk %}}{{{{ super }}}}{{{{ {a} }}}}{{% endblock %}}")),
        name().prop_map(|a| format!("{{% call({a}) mm2({a}) %}}{{{{ {a} }}}}{{% endcall %}}")),
        name().prop_map(|a| format!("{{% do dict({a}={a}) %}}")),
        (name(), name()).prop_map(|(a, b)| format!("{{% if {a} %}}{{% set {b} = 1 %}}{{% endif %}}{{{{ {b} }}}}")),
        (name(), name()).prop_map(|(a, b)| format!("{{% for q in [1] %}}{{% set {a} = 1 %}}{{% endfor %}}{{{{ {a} }}}}{{{{ {b} }}}}")),
        (name(), name()).prop_map(|(a, b)| format!("{{{{ {a}|default({b}) }}}}{{{{ {a} is eq({b}) }}}}{{{{ dict(k={b}) }}}}")),
        (name(), name()).prop_map(|(a, b)| format!("{{% macro o() %}}{{% macro inner({a}) %}}{{{{ {a} }}}}{{{{ {b} }}}}{{% endmacro %}}{{{{ inner(1) }}}}{{% endmacro %}}{{{{ o() }}}}")),
        name().prop_map(|a| format!("{{{{ self.blk() if false }}}}{{{{ [{a}] }}}}")),
        // two macro / call-block declarations on one level that read a name the template
        // assigned, the first one on a path that may be skipped
        (name(), name()).prop_map(|(a, b)| format!("{{% set {a} = 1 %}}{{% if {b} %}}{{% macro ma() %}}{{{{ {a} }}}}{{% endmacro %}}{{% endif %}}{{% macro mb() %}}[{{{{ {a} }}}}]{{% endmacro %}}{{{{ mb() }}}}")),
        (name(), name()).prop_map(|(a, b)| format!("{{% set {a} = 1 %}}{{% for q in [1] %}}{{% if {b} %}}{{% continue %}}{{% endif %}}{{% macro ma() %}}{{{{ {a} }}}}{{% endmacro %}}{{% endfor %}}{{% call(qq) mm2(1) %}}{{{{ {a} }}}}{{% endcall %}}")),
        (name(), name()).prop_map(|(a, b)| format!("{{% set {a} = 1 %}}{{% for q in {b} %}}x{{% else %}}{{% macro ma() %}}{{{{ {a} }}}}{{% endmacro %}}{{% endfor %}}{{% macro mb() %}}{{{{ {a} }}}}{{% endmacro %}}{{{{ mb() }}}}")),
        // a block that reads a template-level assignment, called through self from a macro / call block
        name().prop_map(|a| format!("{{% set {a} = 1 %}}{{% block blkm %}}{{{{ {a} }}}}{{% endblock %}}{{% macro mself() %}}{{{{ self.blkm() }}}}{{% endmacro %}}{{{{ mself() }}}}")),
        name().prop_map(|a| format!("{{% set {a} = 1 %}}{{% block blkc %}}{{{{ {a} }}}}{{% endblock %}}{{% call(qq) mm2(1) %}}{{{{ self.blkc() }}}}{{% endcall %}}")),
        // a recursive loop continued from inside a call block
        name().prop_map(|a| format!("{{% set {a} = 1 %}}{{% for qrec in [[1]] recursive %}}{{{{ {a} }}}}{{% call(qq) mm2(1) %}}{{{{ loop(qrec)|string if qrec is sequence }}}}{{% endcall %}}{{% endfor %}}")),
    ];
    prop::collection::vec(stmt, 1..5)
        .prop_map(|v| format!("{{% macro mm2(q) %}}{{{{ caller(1) }}}}{{% endmacro %}}{}", v.concat()))
        .boxed()
}

impl Part for Soundness {
    type Case = MetaCase;
    const NAME: &'static str = "undeclared_soundness";

    fn strategy(tier: Tier) -> BoxedStrategy<MetaCase> {
        let o = Opts {
            multi: false,
            sdepth: tier.pick(2, 3),
            edepth: 2,
            extreme: false,
            ..Opts::default()
        };
        let free_src = free::template(o).prop_map(|mut b| {
            // single-file templates only; blocks are fine (no parent), super() would fail
            map_stmt_exprs(&mut b, &mut |e| {
                map_expr(e, &mut |e| {
                    if *e == Expr::var("debug") {
                        *e = Expr::var("dict");
                    }
                })
            });
            print::template_default(&b)
        });
        (
            prop_oneof![2 => tricky(), 1 => free_src, 1 => crate::gen::tame::source()],
            prop::collection::vec(0..free::VARS.len(), 0..5),
            prop::collection::vec(crate::runner::one_of(&["loop", "self", "super", "caller", "varargs", "kwargs", "z", "a2", "q", "ns"]), 0..5),
            any::<u8>(),
            prop_oneof![7 => Just(0u8), 2 => Just(1u8), 1 => Just(2u8)],
        )
            .prop_map(|(source, missing, extra, undefined, syntax_switch)| MetaCase {
                source,
                missing: missing.into_iter().map(|i| free::VARS[i].to_string()).collect(),
                extra: extra.into_iter().map(|s| s.to_string()).collect(),
                undefined,
                syntax_switch,
            })
            .boxed()
    }

    fn check(c: &MetaCase) -> Verdict {
        let mut env = Environment::new();
        env.set_debug(false);
        env.set_undefined_behavior(crate::props::c01::behavior(c.undefined));
        env.set_fuel(Some(100_000));
        let mut source = c.source.clone();
        if c.syntax_switch % 3 != 0 {
            let custom = |bs: &str, be: &str, vs: &str, ve: &str, cs: &str, ce: &str| {
                minijinja::syntax::SyntaxConfig::builder()
                    .block_delimiters(bs.to_string(), be.to_string())
                    .variable_delimiters(vs.to_string(), ve.to_string())
                    .comment_delimiters(cs.to_string(), ce.to_string())
                    .build()
                    .unwrap()
            };
            // the same template spelled with other delimiters (a source in which the replacement
            // does not give a valid template is skipped as a load error)
            source = source.replace("{%", "<%").replace("%}", "%>").replace("{{", "<<").replace("}}", ">>").replace("{#", "<#").replace("#}", "#>");
            env.set_syntax(custom("<%", "%>", "<<", ">>", "<#", "#>"));
            if env.add_template_owned("t.txt".to_string(), source.clone()).is_err() {
                return Verdict::pass(false).label("load_error");
            }
            if c.syntax_switch % 3 == 1 {
                env.set_syntax(Default::default());
            } else {
                env.set_syntax(custom("[%", "%]", "[[", "]]", "[#", "#]"));
            }
        } else if env.add_template_owned("t.txt".to_string(), source.clone()).is_err() {
            return Verdict::pass(false).label("load_error");
        }
        let t = env.get_template("t.txt").unwrap();
        let declared: BTreeSet<String> = t.undeclared_variables(false).into_iter().collect();
        let nested: BTreeSet<String> = t
            .undeclared_variables(true)
            .into_iter()
            .map(|s| s.split('.').next().unwrap_or("").to_string())
            .collect();
        let globals: BTreeSet<String> = env.globals().map(|(k, _)| k.to_string()).collect();
        let mut vals: Vec<(String, minijinja::Value)> = std_ctx()
            .into_iter()
            .filter(|(k, _)| !c.missing.contains(k))
            .map(|(k, v)| (k, v.to_value()))
            .collect();
        for e in &c.extra {
            vals.push((e.clone(), minijinja::Value::from(format!("ctx-{e}"))));
        }
        let rec = Recording::new(vals);
        let result = t.render(rec.value());
        let requested: BTreeSet<String> = rec.requested().into_iter().collect();
        let read: BTreeSet<String> = requested.difference(&globals).cloned().collect();
        let assigns_and_reads = ["set ", "with ", "for ", "macro "].iter().any(|k| c.source.contains(k));
        let mut v = Verdict::pass(!read.is_empty() && assigns_and_reads);
        if result.is_ok() {
            v.labels.push("rendered_ok");
        }
        if c.syntax_switch % 3 != 0 {
            v.labels.push("syntax_switched_after_load");
        }
        for (what, set) in [("undeclared_variables(false)", &declared), ("undeclared_variables(true)", &nested)] {
            let omitted: Vec<&String> = read.difference(set).collect();
            if let Some(name) = omitted.first() {
                let class = match name.as_str() {
                    // a block that reads a template-level assignment and is rendered through
                    // self.<block>() from inside a macro or call block runs on the macro's
                    // context, which does not hold that assignment: a listed finding
                    n if ["blkm", "blkc"].iter().any(|b| {
                        c.source.contains(&format!("self.{b}()")) && c.source.contains(&format!("{{% block {b} %}}{{{{ {n} }}}}"))
                    }) =>
                    {
                        "block_via_self_in_macro"
                    }
                    // loop(...) called from inside a call block continues the recursive loop on
                    // the caller macro's context, which holds none of the template's names: a
                    // listed finding (every name the loop body reads is then looked up)
                    n if c.source.find("{% for qrec in").map_or(false, |at| {
                        let body = &c.source[at..];
                        let body = &body[..body.find("{% endfor %}").unwrap_or(body.len())];
                        body.contains("{% endcall %}") && body.contains("loop(qrec)") && body.contains(n)
                    }) =>
                    {
                        "recursive_loop_via_call_block"
                    }
                    "loop" | "self" | "super" | "caller" | "varargs" | "kwargs" => name.as_str(),
                    // declaring a macro whose body mentions its own name encloses (= looks up)
                    // that name before the macro is stored: a listed finding
                    n if c.source.contains(&format!("macro {n}(")) => "macro_own_name",
                    _ => "name",
                };
                v.set_fail(
                    format!("omitted:{class}"),
                    format!(
                        "the render looked up {omitted:?} in the context but {what} = {set:?}\nsource: {}",
                        c.source
                    ),
                );
            }
        }
        v
    }

    fn show(c: &MetaCase) -> serde_json::Value {
        serde_json::json!({"source": c.source, "missing": c.missing, "extra": c.extra})
    }
}

crate::declare_parts!(Soundness);

pub fn run(ctx: &mut Ctx) {
    ctx.rule = "single-file templates (no include/import/extends): a generator of assignment shapes that read what they assign (set x = f(x), tuple targets, set-blocks reading their target, set-block/filter-block filter arguments, with a = a / with a = 1, b = a, loop targets reused in iterable/filter/else, macro defaults reading other parameters and themselves, call-block parameters, nested macros, one-branch-only assignments, set ns.attr, slices, autoescape expressions, loop/self/super/caller/varargs/kwargs as plain variables), plus free-mode and tame programs; rendered (in 30 % of the cases after the template was loaded under custom delimiters and the environment's syntax switched afterwards) with a recording context object over random subsets of the context (and context keys named like the special names); every key the engine asked the context for, minus the environment's globals, must be in undeclared_variables(false) and among the first segments of undeclared_variables(true). Non-trivial: at least one context look-up and the template contains an assigning construct. Distinct by case.".into();
    ctx.assumptions = vec![
        "debug mode is off so that error decoration does not add look-ups".into(),
        "one direction only: the report may over-approximate".into(),
    ];
    preamble(ctx);
    let t = ctx.tier;
    ctx.run_part::<Soundness>(t.pick(400_000, 30_000_000));
}
