//! C13 — fuel gives every render a fixed, exact success threshold.
use minijinja::{Environment, ErrorKind, Value};
use proptest::prelude::*;
use serde::{Deserialize, Serialize};

use crate::gen::free::{self, Opts};
use crate::gen::print;
use crate::props::c01::std_ctx;
use crate::runner::{Ctx, Part, Tier, Verdict};

#[derive(Clone, Debug, Serialize, Deserialize)]
pub struct FuelCase {
    pub main_name: String,
    pub source: String,
    pub companions: Vec<(String, String)>,
}

#[derive(Clone, Debug, PartialEq)]
enum Outcome {
    Ok(String),
    /// kind, detail, line, name
    Err(String),
    OutOfFuel,
}

fn chain_has_fuel(e: &minijinja::Error) -> bool {
    if e.kind() == ErrorKind::OutOfFuel {
        return true;
    }
    let mut src = std::error::Error::source(e);
    while let Some(s) = src {
        if let Some(me) = s.downcast_ref::<minijinja::Error>() {
            if me.kind() == ErrorKind::OutOfFuel {
                return true;
            }
        }
        src = s.source();
    }
    false
}

fn describe_err(e: &minijinja::Error) -> String {
    let mut out = format!("{:?}|{:?}|{:?}|{:?}", e.kind(), e.detail(), e.line(), e.name());
    let mut src = std::error::Error::source(e);
    while let Some(s) = src {
        if let Some(me) = s.downcast_ref::<minijinja::Error>() {
            out.push_str(&format!(" <- {:?}|{:?}|{:?}|{:?}", me.kind(), me.detail(), me.line(), me.name()));
        }
        src = s.source();
    }
    out
}

struct Setup {
    env: Environment<'static>,
    main: String,
    ctx: Value,
}

/// host callbacks that re-enter the engine while a render is running: a block rendered through
/// the state, a macro or callable invoked from Rust
fn host_render_block(state: &mut minijinja::State, name: &str) -> Result<String, minijinja::Error> {
    state.render_block(name)
}

fn host_call(state: &mut minijinja::State, f: Value, arg: Value) -> Result<Value, minijinja::Error> {
    f.call(state, &[arg])
}

fn setup(c: &FuelCase) -> Option<Setup> {
    let mut env = Environment::new();
    env.add_function("host_render_block", host_render_block);
    env.add_function("host_call", host_call);
    env.add_filter("via_host", host_call);
    for (n, s) in &c.companions {
        let _ = env.add_template_owned(n.clone(), s.clone());
    }
    env.add_template_owned(c.main_name.clone(), c.source.clone()).ok()?;
    let ctx = Value::from_pairs(std_ctx().into_iter().map(|(k, v)| (k, v.to_value())));
    Some(Setup {
        env,
        main: c.main_name.clone(),
        ctx,
    })
}

/// render with a budget; returns the outcome and the fuel levels of a successful render
fn render(s: &mut Setup, fuel: Option<u64>) -> (Outcome, Option<(u64, u64)>) {
    s.env.set_fuel(fuel);
    let t = s.env.get_template(&s.main).expect("template");
    match t.render_captured(s.ctx.clone()) {
        Ok(cap) => {
            let levels = cap.state().fuel_levels();
            (Outcome::Ok(cap.into_output()), levels)
        }
        Err(e) => {
            if chain_has_fuel(&e) {
                (Outcome::OutOfFuel, None)
            } else {
                (Outcome::Err(describe_err(&e)), None)
            }
        }
    }
}

pub struct Threshold;

fn source_strategy(tier: Tier) -> BoxedStrategy<String> {
    let o = Opts {
        sdepth: tier.pick(2, 3),
        edepth: 2,
        extreme: false,
        ..Opts::default()
    };
    prop_oneof![
        2 => crate::gen::tame::source(),
        1 => free::template(o).prop_map(|b| print::template_default(&b)),
        2 => nested_eval_source(),
    ]
    .boxed()
}

/// programs that cross nested evaluations: macros, call blocks, includes, imports, inheritance
fn nested_eval_source() -> BoxedStrategy<String> {
    let piece = crate::runner::one_of(&[
        "{{ mac(1, 2) }}",
        "{% call(v) wrap(2) %}<{{ v }}>{% endcall %}",
        "{% include 'a.txt' %}",
        "{% include ['missing.txt', 'c.txt'] %}",
        "{% from 'c.txt' import m1 %}{{ m1(3) }}",
        "{% import 'c.txt' as mod %}{{ mod.m1(1) }}",
        "{{ self.a() }}",
        "{% for q in l %}{{ mac(q) }}{% endfor %}",
        "{% for q in ll recursive %}{{ loop(q) if q is sequence else q }}{% endfor %}",
        "{% set cap %}{{ mac(5) }}{% endset %}{{ cap|upper }}",
        "{% filter upper %}{% include 'a.txt' %}{% endfilter %}",
        "{{ l|map('string')|join(',') }}",
        "{% with t = mac(2) %}{{ t }}{% endwith %}",
        "{{ 1 // 0 }}",
        "{{ nosuch() }}",
        "text",
        // loops that end long before their iterable does
        "{% for q in range(60) %}{% if q == 2 %}{% break %}{% endif %}x{% endfor %}",
        "{% for q in range(40) %}{{ 6 // (3 - q) }}{% endfor %}",
        "{% for q in range(30) %}{% for r in range(30) %}{% if r %}{% break %}{% endif %}{% endfor %}{% if q > 1 %}{% break %}{% endif %}{% endfor %}",
        "{% for q in l * 20 %}{% if loop.index > 1 %}{{ nosuch() }}{% endif %}{% endfor %}",
        // the host re-enters the engine (same render, same budget)
        "{{ host_render_block('a') }}",
        "{% for q in l %}{{ host_render_block('a') }}{% endfor %}",
        "{{ host_call(mac, 7) }}",
        "{{ mac|via_host(8) }}{% set hv = host_render_block('a') %}{{ hv }}",
        "{% macro viahost() %}{{ host_render_block('a') }}{% endmacro %}{{ viahost() }}",
    ]);
    (prop::collection::vec(piece, 1..6), any::<bool>(), any::<bool>())
        .prop_map(|(pieces, inherit, sup)| {
            let body = pieces.concat();
            let head = "{% macro mac(a, b=1) %}[{{ a }}:{{ b }}]{% endmacro %}{% macro wrap(n) %}{% for z in range(n) %}{{ caller(z) }}{% endfor %}{% endmacro %}";
            if inherit {
                format!(
                    "{{% extends 'b.html' %}}{head}{{% block a %}}{}{body}{{% endblock %}}",
                    if sup { "{{ super() }}" } else { "" }
                )
            } else {
                format!("{head}{{% block a %}}A{{% endblock %}}{body}")
            }
        })
        .boxed()
}

fn fixed_companions() -> Vec<(String, String)> {
    vec![
        ("a.txt".into(), "<a:{{ i }}{% for q in l %}{{ q }}{% endfor %}>".into()),
        (
            "b.html".into(),
            // itself a child: `super()` in the main template's block reaches a block that calls
            // `super()` again (two nested super levels below the block the budget may run out in)
            "{% extends 'bb.html' %}{% block a %}{{ super() }}base-a{% for q in l %}.{% endfor %}{% endblock %}{% block z %}z{% endblock %}".into(),
        ),
        (
            "bb.html".into(),
            "<base>{% block a %}root-a{% for q in l %}:{{ q }}{% endfor %}{% endblock %}{% block z %}zz{% endblock %}</base>".into(),
        ),
        (
            "c.txt".into(),
            "{% macro m1(n) %}{% for q in range(n) %}m{{ q }}{% endfor %}{% endmacro %}<c>".into(),
        ),
    ]
}

impl Part for Threshold {
    type Case = FuelCase;
    const NAME: &'static str = "fuel_threshold";

    fn strategy(tier: Tier) -> BoxedStrategy<FuelCase> {
        let o = Opts {
            sdepth: 1,
            edepth: 2,
            extreme: false,
            ..Opts::default()
        };
        let comp = free::template(o).prop_map(|b| print::template_default(&b));
        (source_strategy(tier), prop::collection::vec(comp, 3), any::<bool>(), any::<bool>())
            .prop_map(|(source, comps, html, generated_companions)| FuelCase {
                main_name: if html { "main.html".into() } else { "main.txt".into() },
                companions: if generated_companions && !source.contains("mod.m1") && !source.contains("import m1") {
                    free::COMPANIONS.iter().zip(comps).map(|(n, s)| (n.to_string(), s)).collect()
                } else {
                    fixed_companions()
                },
                source,
            })
            .boxed()
    }

    fn check(c: &FuelCase) -> Verdict {
        let Some(mut s) = setup(c) else {
            return Verdict::pass(false).label("load_error");
        };
        // the unlimited outcome; a generous budget stands in for "no limit" to bound run time
        const BIG: u64 = 400_000;
        let (with_big, _) = render(&mut s, Some(BIG));
        if with_big == Outcome::OutOfFuel {
            return Verdict::pass(false).label("too_expensive");
        }
        let (u, none_levels) = render(&mut s, None);
        let mut v = Verdict::pass(false);
        if u != with_big {
            v.set_fail(
                "unlimited_differs_from_large_budget",
                format!("no fuel limit gives {u:?} but budget {BIG} gives {with_big:?}\nsource: {}", c.source),
            );
            return v;
        }
        if none_levels.is_some() {
            v.set_fail("levels_without_fuel", format!("fuel_levels() is {none_levels:?} although no fuel is configured"));
        }
        // bisect the threshold: smallest budget whose outcome is not OutOfFuel
        let (mut lo, mut hi) = (0u64, BIG); // outcome(hi) != OutOfFuel
        while lo < hi {
            let mid = lo + (hi - lo) / 2;
            if render(&mut s, Some(mid)).0 == Outcome::OutOfFuel {
                lo = mid + 1;
            } else {
                hi = mid;
            }
        }
        let t = lo;
        let nested = ["mac(", "include", "import", "super()", "self.", "caller", "loop("]
            .iter()
            .any(|k| c.source.contains(k));
        v.nontrivial = t >= 10 && nested;
        if matches!(u, Outcome::Err(_)) {
            v.labels.push("program_fails_on_its_own");
        }
        if nested {
            v.labels.push("nested_evaluation");
        }
        // every budget around the threshold, a sample below it, and the extremes
        let mut budgets: Vec<u64> = (t.saturating_sub(40)..=t + 16).collect();
        let step = (t / 40).max(1);
        budgets.extend((0..t.saturating_sub(40)).step_by(step as usize));
        budgets.extend([1 << 31, 1 << 32, (1 << 63) - 1, 1 << 63, (1 << 63) + 1, u64::MAX - 1, u64::MAX]);
        let mut consumed_seen: Option<u64> = None;
        for b in budgets {
            let (o, levels) = render(&mut s, Some(b));
            if b >= t {
                if o != u {
                    let sig = if o == Outcome::OutOfFuel {
                        if b > 1 << 62 { "huge_budget_out_of_fuel" } else { "out_of_fuel_above_threshold" }
                    } else {
                        "different_outcome_above_threshold"
                    };
                    v.set_fail(sig, format!("threshold {t}: budget {b} gives {o:?}, unlimited gives {u:?}\nsource: {}", c.source));
                }
                if let Some((consumed, remaining)) = levels {
                    if consumed.checked_add(remaining) != Some(b) {
                        v.set_fail(
                            "levels_do_not_add_up",
                            format!("budget {b}: consumed {consumed} + remaining {remaining} != budget\nsource: {}", c.source),
                        );
                    }
                    // a render that charges nothing succeeds with any budget (T = 0)
                    if (consumed == 0 && t != 0) || (consumed > 0 && consumed + 1 != t) {
                        v.set_fail(
                            "consumed_not_threshold_minus_one",
                            format!("budget {b}: consumed {consumed} but the success threshold is {t}\nsource: {}", c.source),
                        );
                    }
                    match consumed_seen {
                        None => consumed_seen = Some(consumed),
                        Some(prev) if prev != consumed => v.set_fail(
                            "consumption_varies",
                            format!("consumed {prev} with one budget and {consumed} with budget {b}\nsource: {}", c.source),
                        ),
                        _ => {}
                    }
                } else if matches!(o, Outcome::Ok(_)) {
                    v.set_fail("levels_missing", format!("budget {b}: fuel_levels() is None after a successful fuelled render"));
                }
            } else if o != Outcome::OutOfFuel {
                v.set_fail(
                    "success_below_threshold",
                    format!("threshold {t} (bisected) but budget {b} gives {o:?}\nsource: {}", c.source),
                );
            }
        }
        // repetition: identical outcome and consumption
        for _ in 0..2 {
            let (o, levels) = render(&mut s, Some(t + 3));
            if o != u || levels.map(|l| l.0) != consumed_seen.filter(|_| matches!(u, Outcome::Ok(_))) {
                v.set_fail(
                    "repetition_differs",
                    format!("repeating budget {} gives {o:?} / {levels:?}, first {u:?} / {consumed_seen:?}\nsource: {}", t + 3, c.source),
                );
            }
        }
        v
    }

    fn show(c: &FuelCase) -> serde_json::Value {
        serde_json::json!({"source": c.source})
    }
}

// ------------------------------------------------------------------ additivity

#[derive(Clone, Debug, Serialize, Deserialize)]
pub struct AddCase {
    pub a: String,
    pub b: String,
    /// 0 = sequence, 1 = macro called k times, 2 = include k times, 3 = call block, 4 = inherited block
    pub wrap: u8,
}

pub struct Additive;

fn cost(source: &str, companions: &[(String, String)]) -> Option<u64> {
    let c = FuelCase {
        main_name: "main.txt".into(),
        source: source.to_string(),
        companions: companions.to_vec(),
    };
    let mut s = setup(&c)?;
    match render(&mut s, Some(1_000_000)) {
        (Outcome::Ok(_), Some((consumed, _))) => Some(consumed),
        _ => None,
    }
}

const FRAGMENTS: [&str; 12] = [
        "x",
        "{{ i }}",
        "{{ s|upper }}",
        "{% for q in l %}{{ q }}{% endfor %}",
        "{% if b %}y{% else %}n{% endif %}",
        "{% set w = i + 1 %}{{ w }}",
        "{% with w = 2 %}{{ w * i }}{% endwith %}",
        "{{ l|join(',') }}{{ m.k }}",
        "{% for q in ls %}{% if loop.first %}F{% endif %}{{ q|e }}{% endfor %}",
        "{% set cap %}c{{ i }}{% endset %}{{ cap }}",
        "{{ [1, 2, 3]|sum }}{{ 'a' ~ 'b' }}",
        "{% filter upper %}f{{ s }}{% endfilter %}",
];

fn fragment() -> BoxedStrategy<String> {
    crate::runner::one_of(&FRAGMENTS).prop_map(|s| s.to_string()).boxed()
}

fn all_add_cases() -> Vec<AddCase> {
    let mut out = vec![];
    for a in FRAGMENTS {
        for b in FRAGMENTS {
            for wrap in 0..5 {
                out.push(AddCase { a: a.to_string(), b: b.to_string(), wrap });
            }
        }
    }
    out
}

impl Part for Additive {
    type Case = AddCase;
    const NAME: &'static str = "fuel_additivity";

    fn strategy(_tier: Tier) -> BoxedStrategy<AddCase> {
        (fragment(), fragment(), 0u8..5)
            .prop_map(|(a, b, wrap)| AddCase { a, b, wrap })
            .boxed()
    }

    fn check(c: &AddCase) -> Verdict {
        let mut v = Verdict::pass(c.wrap > 0);
        let none: Vec<(String, String)> = vec![];
        match c.wrap {
            0 => {
                // cost(A {##} B) == cost(A) + cost(B): the empty comment keeps adjacent text apart
                let (ca, cb, cab) = (
                    cost(&c.a, &none),
                    cost(&c.b, &none),
                    cost(&format!("{}{{##}}{}", c.a, c.b), &none),
                );
                if let (Some(ca), Some(cb), Some(cab)) = (ca, cb, cab) {
                    if ca + cb != cab {
                        v.set_fail("sequence_not_additive", format!("cost({:?}) = {ca}, cost({:?}) = {cb}, cost of both = {cab}", c.a, c.b));
                    }
                } else {
                    v.set_fail("additivity_err", format!("fragments failed to render: {:?} {:?}", c.a, c.b));
                }
            }
            w => {
                // invoking B k times through a nested evaluation costs c0 + k * d for constants c0, d
                let comps = vec![("inc.txt".to_string(), c.b.clone()), ("base.txt".to_string(), "{% block blk %}{% endblock %}".to_string())];
                let src = |k: usize| -> String {
                    match w {
                        1 => format!("{{% macro mm() %}}{}{{% endmacro %}}{}", c.b, "{{ mm() }}{##}".repeat(k)),
                        2 => "{% include 'inc.txt' %}{##}".repeat(k),
                        3 => format!(
                            "{{% macro mm() %}}{{{{ caller() }}}}{{% endmacro %}}{}",
                            format!("{{% call mm() %}}{}{{% endcall %}}{{##}}", c.b).repeat(k)
                        ),
                        _ => format!("{{% extends 'base.txt' %}}{{% block blk %}}{}{{% endblock %}}{{% set unused = 1 %}}{}", c.b, "{% set z = 1 %}".repeat(k)),
                    }
                };
                let costs: Vec<Option<u64>> = (0..5).map(|k| cost(&src(k), &comps)).collect();
                if costs.iter().any(|x| x.is_none()) {
                    v.set_fail("additivity_err", format!("wrap {w} of {:?} failed to render: {costs:?}", c.b));
                } else {
                    let cs: Vec<u64> = costs.into_iter().map(|x| x.unwrap()).collect();
                    let d = cs[1] as i64 - cs[0] as i64;
                    for k in 1..5 {
                        if cs[k] as i64 - cs[k - 1] as i64 != d {
                            v.set_fail(
                                format!("nested_cost_not_linear:{w}"),
                                format!("wrap {w} of {:?}: costs for k=0..4 are {cs:?} (not an arithmetic progression)", c.b),
                            );
                        }
                    }
                    if w != 4 {
                        // the body must be charged on every invocation
                        if let Some(cb) = cost(&c.b, &none) {
                            if d < cb as i64 {
                                v.set_fail(
                                    format!("nested_body_undercharged:{w}"),
                                    format!("wrap {w}: one more invocation costs {d} but the body alone costs {cb} ({:?})", c.b),
                                );
                            }
                        }
                    }
                }
            }
        }
        v
    }
}

crate::declare_parts!(Threshold, Additive);

pub fn run(ctx: &mut Ctx) {
    ctx.rule = "threshold: tame, free-mode (non-extreme) and nested-evaluation programs (macros, call blocks, includes, imports, recursive loops, inheritance with super(), programs that fail on their own); U = outcome with no limit; T bisected; every budget in [T-40, T+16], ~40 sampled budgets below, and 2^31, 2^32, 2^63-1, 2^63, 2^63+1, 2^64-2, 2^64-1 must give U (>= T) or out-of-fuel (< T); fuel_levels must satisfy consumed + remaining == budget, consumed == T-1, and be identical across budgets and repetitions. additivity: cost(A {##} B) == cost(A) + cost(B); k invocations of B through macro / include / call block / inherited block cost c0 + k*d with d >= cost(B). Non-trivial: T >= 10 and the program crosses a nested evaluation. Distinct by case.".into();
    ctx.assumptions = vec![
        "a budget of 400000 stands in for 'unlimited' when bisecting; programs that exceed it are skipped (label too_expensive)".into(),
    ];
    preamble(ctx);
    let t = ctx.tier;
    ctx.run_part::<Threshold>(t.pick(20_000, 500_000));
    ctx.run_enumerated::<Additive>(all_add_cases(), true);
}
