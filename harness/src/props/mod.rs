pub mod c01;
pub mod c02;
pub mod c03;
pub mod c04;
pub mod c05;
pub mod c06;
pub mod c07;
pub mod c08;
pub mod c09;
pub mod c10;
pub mod c11;
pub mod c12;
pub mod c13;
pub mod c14;
pub mod c15;
pub mod c16;
pub mod c17;
pub mod c18;
pub mod c19;
pub mod c20;

use crate::runner::{Ctx, ReplayFile};

pub type RunFn = fn(&mut Ctx);
pub type ReplayFn = fn(&mut Ctx, &ReplayFile) -> bool;
pub type WorkerFn = fn(&str, &[String]) -> bool;

pub fn lookup(id: &str) -> Option<(&'static str, RunFn, ReplayFn, &'static str, WorkerFn)> {
    // (id, run, replay, level)
    Some(match id {
        "C01" => ("C01", c01::run, c01::replay_any, "exploration", c01::worker),
        "C02" => ("C02", c02::run, c02::replay, "exploration", c02::worker),
        "C03" => ("C03", c03::run, c03::replay, "exploration", c03::worker),
        "C04" => ("C04", c04::run, c04::replay, "exploration", c04::worker),
        "C05" => ("C05", c05::run, c05::replay, "exploration", c05::worker),
        "C06" => ("C06", c06::run, c06::replay, "exploration", c06::worker),
        "C07" => ("C07", c07::run, c07::replay, "exploration", c07::worker),
        "C08" => ("C08", c08::run, c08::replay, "exploration", c08::worker),
        "C09" => ("C09", c09::run, c09::replay, "exploration", c09::worker),
        "C10" => ("C10", c10::run, c10::replay, "exploration", c10::worker),
        "C11" => ("C11", c11::run, c11::replay_any, "exploration", c11::worker),
        "C12" => ("C12", c12::run, c12::replay, "exploration", c12::worker),
        "C13" => ("C13", c13::run, c13::replay, "exploration", c13::worker),
        "C14" => ("C14", c14::run, c14::replay, "exploration", c14::worker),
        "C15" => ("C15", c15::run, c15::replay, "exploration", c15::worker),
        "C16" => ("C16", c16::run, c16::replay, "exploration", c16::worker),
        "C17" => ("C17", c17::run, c17::replay, "exploration", c17::worker),
        "C18" => ("C18", c18::run, c18::replay, "exploration", c18::worker),
        "C19" => ("C19", c19::run, c19::replay, "fault_enumeration", c19::worker),
        "C20" => ("C20", c20::run, c20::replay, "exploration", c20::worker),
        _ => return None,
    })
}
