pub mod c07;
pub mod c08;
pub mod c09;
pub mod c16;
pub mod c17;

use crate::runner::{Ctx, ReplayFile};

pub type RunFn = fn(&mut Ctx);
pub type ReplayFn = fn(&mut Ctx, &ReplayFile) -> bool;

pub fn lookup(id: &str) -> Option<(&'static str, RunFn, ReplayFn, &'static str)> {
    // (id, run, replay, level)
    Some(match id {
        "C07" => ("C07", c07::run, c07::replay, "exploration"),
        "C08" => ("C08", c08::run, c08::replay, "exploration"),
        "C09" => ("C09", c09::run, c09::replay, "exploration"),
        "C16" => ("C16", c16::run, c16::replay, "exploration"),
        "C17" => ("C17", c17::run, c17::replay, "exploration"),
        _ => return None,
    })
}
