pub mod c08;

use crate::runner::{Ctx, ReplayFile};

pub type RunFn = fn(&mut Ctx);
pub type ReplayFn = fn(&mut Ctx, &ReplayFile) -> bool;

pub fn lookup(id: &str) -> Option<(&'static str, RunFn, ReplayFn, &'static str)> {
    // (id, run, replay, level)
    Some(match id {
        "C08" => ("C08", c08::run, c08::replay, "exploration"),
        _ => return None,
    })
}
