use mjv::props;
use mjv::runner::{install_panic_hook, Ctx, ReplayFile, Tier};

fn usage() -> ! {
    eprintln!("usage: mjv <Cxx> <quick|thorough> | mjv <Cxx> --replay <file>");
    std::process::exit(2)
}

fn main() {
    let args: Vec<String> = std::env::args().skip(1).collect();
    if args.len() < 2 {
        usage();
    }
    let Some((id, run, replay, level, worker)) = props::lookup(&args[0]) else {
        eprintln!("unknown property {}", args[0]);
        std::process::exit(2)
    };
    let seed: u64 = std::env::var("VERIF_SEED")
        .ok()
        .and_then(|s| s.trim().parse::<i128>().ok())
        .map(|v| v.rem_euclid(1i128 << 62) as u64)
        .unwrap_or(20260924);
    install_panic_hook();
    if args.get(2).map(|s| s.as_str()) == Some("--worker") {
        // child of an isolated run: mjv <id> <tier> --worker <part> <mode> ...
        if !worker(&args[3], &args[4..]) {
            eprintln!("no part named {} in {}", args[3], id);
            std::process::exit(2);
        }
        std::process::exit(0);
    }
    if args[1] == "--replay" {
        let Some(path) = args.get(2) else { usage() };
        let text = std::fs::read_to_string(path).unwrap_or_else(|e| {
            eprintln!("cannot read {path}: {e}");
            std::process::exit(2)
        });
        let rf: ReplayFile = serde_json::from_str(&text).unwrap_or_else(|e| {
            eprintln!("cannot parse {path}: {e}");
            std::process::exit(2)
        });
        if rf.variant.as_deref() == Some("alt") && !cfg!(feature = "alt") {
            // the case belongs to the other build variant: hand over
            let Ok(bin) = std::env::var("MJV_ALT") else {
                eprintln!("replay needs the alt build (run through ./check)");
                std::process::exit(2)
            };
            let st = std::process::Command::new(bin).args(&args).status().expect("spawn alt");
            std::process::exit(st.code().unwrap_or(2));
        }
        let tier = if rf.tier == "thorough" { Tier::Thorough } else { Tier::Quick };
        let mut ctx = Ctx::new(id, tier, seed);
        ctx.level = level;
        ctx.rule = format!("replay of {path}");
        if !replay(&mut ctx, &rf) {
            eprintln!("no part named {} in {}", rf.part, id);
            std::process::exit(2);
        }
        // replay does not rewrite the evidence file
        props::c17::cleanup();
        let code = ctx.finish_replay(path);
        std::process::exit(code);
    }
    let tier = match args[1].as_str() {
        "quick" => Tier::Quick,
        "thorough" => Tier::Thorough,
        _ => usage(),
    };
    let mut ctx = Ctx::new(id, tier, seed);
    ctx.level = level;
    ctx.sub = args.get(2).map(|s| s.as_str()) == Some("--sub");
    run(&mut ctx);
    if ctx.sub {
        println!("EXPORT {}", ctx.export());
        std::process::exit(0);
    }
    std::process::exit(ctx.finish());
}
