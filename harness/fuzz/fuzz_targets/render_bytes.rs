//! libFuzzer target for C01: load + render (or compile_expression + eval) of arbitrary bytes.
//!
//! Input layout: the bytes are split at NUL into the main source and up to three companion
//! templates (`a.txt`, `b.html`, `c.txt`); `len % 16` selects the configuration (template name
//! extension, undefined behaviour, debug info, expression mode).  The oracle is C01's: the call
//! returns Ok or Err — a panic (libfuzzer-sys aborts on it), an abort or a stack overflow is a
//! crash artifact.  The case runs on a 128 MiB thread and inputs are capped at 4 KiB by the
//! driver so that the listed stack-overflow findings (ladders, deep values, block recursion) are
//! excluded by construction.
#![no_main]
use std::sync::atomic::{AtomicU64, Ordering};
use std::sync::Once;

use libfuzzer_sys::fuzz_target;
use minijinja::value::Value;
use minijinja::{Environment, UndefinedBehavior};

static EXECS: AtomicU64 = AtomicU64::new(0);
static COMPILED: AtomicU64 = AtomicU64::new(0);
static RENDER_OK: AtomicU64 = AtomicU64::new(0);
static RENDER_ERR: AtomicU64 = AtomicU64::new(0);
static EXPR_MODE: AtomicU64 = AtomicU64::new(0);
static WITH_COMPANIONS: AtomicU64 = AtomicU64::new(0);
static STATS: Once = Once::new();

extern "C" {
    fn atexit(cb: extern "C" fn()) -> i32;
}

extern "C" fn write_stats() {
    if let Some(dir) = std::env::var_os("MJV_FUZZ_STATS") {
        let p = std::path::Path::new(&dir).join(format!("{}.json", std::process::id()));
        let _ = std::fs::write(
            p,
            format!(
                "{{\"execs\":{},\"compiled\":{},\"render_ok\":{},\"render_err\":{},\"expr_mode\":{},\"with_companions\":{}}}",
                EXECS.load(Ordering::Relaxed),
                COMPILED.load(Ordering::Relaxed),
                RENDER_OK.load(Ordering::Relaxed),
                RENDER_ERR.load(Ordering::Relaxed),
                EXPR_MODE.load(Ordering::Relaxed),
                WITH_COMPANIONS.load(Ordering::Relaxed),
            ),
        );
    }
}

fn context() -> Value {
    Value::from_pairs([
        ("i", Value::from(42)),
        ("n", Value::from(-3)),
        ("big", Value::from(u64::MAX)),
        ("f", Value::from(1.5)),
        ("s", Value::from("hello <world> & \"q\"")),
        ("e", Value::from("")),
        ("b", Value::from(true)),
        ("none", Value::from(())),
        ("l", Value::from(vec![1, 2, 3])),
        ("ls", Value::from(vec!["b", "a", "C"])),
        ("m", Value::from_pairs([("k", Value::from(1)), ("j", Value::from(vec![1, 2]))])),
        ("deep", Value::from(vec![Value::from(vec![Value::from(vec![1])])])),
    ])
}

fn format_error(err: &minijinja::Error) {
    let _ = format!("{err}");
    let _ = format!("{err:#}");
    let _ = format!("{err:?}");
    let _ = format!("{err:#?}");
    let _ = format!("{}", err.display_debug_info());
    let _ = (err.line(), err.range(), err.name().map(|x| x.len()), err.kind());
}

fn one(data: &[u8]) {
    let cfg = data.len() % 16;
    let text = String::from_utf8_lossy(data);
    let mut parts = text.split('\0');
    let main = parts.next().unwrap_or("");
    let companions: Vec<&str> = parts.take(3).collect();
    let mut env = Environment::new();
    minijinja_contrib::add_to_environment(&mut env);
    env.set_fuel(Some(20_000));
    env.set_debug(cfg & 4 != 0);
    env.set_undefined_behavior(if cfg & 2 != 0 { UndefinedBehavior::Strict } else { UndefinedBehavior::Lenient });
    if !companions.is_empty() {
        WITH_COMPANIONS.fetch_add(1, Ordering::Relaxed);
    }
    for (name, src) in ["a.txt", "b.html", "c.txt"].iter().zip(companions.iter()) {
        if let Err(e) = env.add_template_owned(name.to_string(), src.to_string()) {
            format_error(&e);
        }
    }
    if cfg & 8 != 0 {
        EXPR_MODE.fetch_add(1, Ordering::Relaxed);
        match env.compile_expression(main) {
            Ok(expr) => {
                COMPILED.fetch_add(1, Ordering::Relaxed);
                let _ = expr.undeclared_variables(true);
                match expr.eval(context()) {
                    Ok(v) => {
                        RENDER_OK.fetch_add(1, Ordering::Relaxed);
                        let _ = format!("{v} {v:?}");
                    }
                    Err(e) => {
                        RENDER_ERR.fetch_add(1, Ordering::Relaxed);
                        format_error(&e);
                    }
                }
            }
            Err(e) => format_error(&e),
        }
        return;
    }
    let name = if cfg & 1 != 0 { "fuzz.html" } else { "fuzz.txt" };
    match env.add_template_owned(name.to_string(), main.to_string()) {
        Err(e) => format_error(&e),
        Ok(()) => {
            COMPILED.fetch_add(1, Ordering::Relaxed);
            let tmpl = env.get_template(name).unwrap();
            let _ = tmpl.undeclared_variables(true);
            match tmpl.render(context()) {
                Ok(_) => {
                    RENDER_OK.fetch_add(1, Ordering::Relaxed);
                }
                Err(e) => {
                    RENDER_ERR.fetch_add(1, Ordering::Relaxed);
                    format_error(&e);
                }
            }
        }
    }
}

fuzz_target!(|data: &[u8]| {
    STATS.call_once(|| unsafe {
        atexit(write_stats);
    });
    EXECS.fetch_add(1, Ordering::Relaxed);
    let owned = data.to_vec();
    // a panic inside the thread reaches libfuzzer-sys' panic hook, which aborts the process
    let h = std::thread::Builder::new().stack_size(128 << 20).spawn(move || one(&owned)).expect("spawn");
    if h.join().is_err() {
        std::process::abort();
    }
});
